// Package walletsim holds the wallet engines: C37 (secrets survive formats and
// password changes) and C38 (never unlocked without a successful unlock).
//
// Real: the wallet module (wallet, wallet/common) on the real queue with its
// database on a simulated disk. Stub: blockchain / store / mempool responders.
package walletsim

import (
	"bytes"
	"crypto/aes"
	"crypto/cipher"
	crand "crypto/rand"
	"crypto/sha256"
	"encoding/hex"
	"encoding/json"
	"fmt"
	"io"
	"reflect"
	"runtime"
	"strings"
	"sync"

	"github.com/33cn/chain33/client"
	"github.com/33cn/chain33/common/address"
	"github.com/33cn/chain33/common/crypto"
	"github.com/33cn/chain33/common/log"
	"github.com/33cn/chain33/queue"
	_ "github.com/33cn/chain33/system" // crypto / address drivers, coins types
	"github.com/33cn/chain33/types"
	"github.com/33cn/chain33/wallet"
	bip39 "github.com/33cn/chain33/wallet/bipwallet/go-bip39"
	wcom "github.com/33cn/chain33/wallet/common"

	"verifsim/simdb"
	"verifsim/simrt"
)

const walletDB = "wallet"

func init() { log.SetLogLevel("crit") }

// ---------------------------------------------------------------------------
// configuration

func tomlFor(id string, signType int) string {
	s := types.GetDefaultCfgstring()
	s = strings.ReplaceAll(s, `driver="leveldb"`, `driver="`+simdb.Backend+`"`)
	s = strings.ReplaceAll(s, `dbPath="wallet"`, `dbPath="`+id+`"`)
	if signType == types.ED25519 {
		s = strings.ReplaceAll(s, `signType="secp256k1"`, `signType="ed25519"`)
	}
	return s
}

func newCfg(id string, signType int) *types.Chain33Config {
	return types.NewChain33Config(tomlFor(id, signType))
}

// ---------------------------------------------------------------------------
// one running wallet (an incarnation of the process)

type inst struct {
	q     queue.Queue
	w     *wallet.Wallet
	stubs []queue.Client
}

func (in *inst) stub(topic string, h func(c queue.Client, msg *queue.Message)) {
	c := in.q.Client()
	c.Sub(topic)
	in.stubs = append(in.stubs, c)
	go func() {
		for msg := range c.Recv() {
			h(c, msg)
		}
	}()
}

// startInst boots the wallet on cfg (whose wallet dbPath names a registered disk).
func startInst(cfg *types.Chain33Config) *inst {
	in := &inst{}
	q := queue.New("channel")
	q.SetConfig(cfg)
	in.q = q
	address.Init(cfg.GetModuleConfig().Address)
	in.stub("blockchain", func(c queue.Client, msg *queue.Message) {
		switch msg.Ty {
		case types.EventGetLastHeader:
			msg.Reply(c.NewMessage("", 0, &types.Header{Height: 1, BlockTime: types.Now().Unix(), StateHash: make([]byte, 32)}))
		case types.EventGetBlockHeight:
			msg.Reply(c.NewMessage("", 0, &types.ReplyBlockHeight{Height: 1}))
		case types.EventGetTransactionByAddr:
			msg.Reply(c.NewMessage("", 0, &types.ReplyTxInfos{}))
		case types.EventGetTransactionByHash:
			msg.Reply(c.NewMessage("", 0, &types.TransactionDetails{}))
		case types.EventIsSync:
			msg.Reply(c.NewMessage("", 0, &types.IsCaughtUp{Iscaughtup: true}))
		default:
			msg.ReplyErr("blockchain stub", types.ErrNotSupport)
		}
	})
	in.stub("store", func(c queue.Client, msg *queue.Message) {
		switch msg.Ty {
		case types.EventStoreGet:
			req := msg.GetData().(*types.StoreGet)
			msg.Reply(c.NewMessage("", 0, &types.StoreReplyValue{Values: make([][]byte, len(req.Keys))}))
		default:
			msg.ReplyErr("store stub", types.ErrNotSupport)
		}
	})
	in.stub("mempool", func(c queue.Client, msg *queue.Message) {
		switch msg.Ty {
		case types.EventGetProperFee:
			msg.Reply(c.NewMessage("", 0, &types.ReplyProperFee{ProperFee: 100000}))
		case types.EventTx:
			msg.Reply(c.NewMessage("", 0, &types.Reply{IsOk: true}))
		default:
			msg.ReplyErr("mempool stub", types.ErrNotSupport)
		}
	})
	in.w = wallet.New(cfg)
	in.w.SetQueueClient(q.Client())
	return in
}

// stop shuts the incarnation down (after a crash the disk it wrote to has been
// cloned already, so nothing it does here is visible to its successor).
func (in *inst) stop() {
	if in == nil {
		return
	}
	simrt.Settle()
	in.w.Close()
	for _, c := range in.stubs {
		c.Close()
	}
	in.q.Close()
}

// api returns a fresh queue-protocol client on the incarnation's queue.
func (in *inst) api() client.QueueProtocolAPI {
	a, err := client.New(in.q.Client(), nil)
	simrt.Must(err, "client.New")
	return a
}

// checker builds a second wallet object over another disk (a snapshot) without
// attaching it to any queue; it is used only for unlock / GetSeed / DumpPrivkey.
// wallet.New re-points the process-global dispatch target, which is restored.
func checker(cfg *types.Chain33Config, live *wallet.Wallet) *wallet.Wallet {
	w := wallet.New(cfg)
	if live != nil {
		wcom.QueryData.SetThis("wallet", reflect.ValueOf(live))
	}
	return w
}

// ---------------------------------------------------------------------------
// the documented legacy schemes, implemented independently of the wallet code:
// key = password zero-padded (or cut) to 32 bytes; private keys AES-256-CBC with
// IV = key[:16] and no padding; seed AES-256-GCM with nonce = key[:12].

func aesKey(password []byte) []byte {
	key := make([]byte, 32)
	if len(password) > 32 {
		copy(key, password[:32])
	} else {
		copy(key, password)
	}
	return key
}

func legacyCBC(password, priv []byte) []byte {
	key := aesKey(password)
	block, err := aes.NewCipher(key)
	simrt.Must(err, "aes")
	out := make([]byte, len(priv))
	cipher.NewCBCEncrypter(block, key[:aes.BlockSize]).CryptBlocks(out, priv)
	return out
}

func legacyGCM(password, seed []byte) []byte {
	key := aesKey(password)
	block, err := aes.NewCipher(key)
	simrt.Must(err, "aes")
	g, err := cipher.NewGCM(block)
	simrt.Must(err, "gcm")
	return g.Seal(nil, key[:12], seed, nil)
}

// pwHashRecord builds the stored password-hash record (schema of the wallet DB).
func pwHashRecord(password string, salt string) []byte {
	h := sha256.Sum256([]byte(fmt.Sprintf("%s:%s", password, salt)))
	b, err := json.Marshal(&types.WalletPwHash{PwHash: h[:], Randstr: salt})
	simrt.Must(err, "marshal pwhash")
	return b
}

// mnemonic derives a valid BIP39 English mnemonic from entropy (16..32 bytes, multiple of 4).
func mnemonic(entropy []byte) string {
	n := len(entropy) / 4 * 4
	if n < 16 {
		e := make([]byte, 16)
		copy(e, entropy)
		entropy, n = e, 16
	}
	if n > 32 {
		n = 32
	}
	lang := int32(0)
	if entropy[0]&7 == 0 {
		lang = 1 // Chinese word list
	}
	m, err := bip39.NewMnemonic(entropy[:n], lang)
	simrt.Must(err, "bip39.NewMnemonic")
	return m
}

// addrOf derives the default-format address of a private key under signType.
func addrOf(signType int, key []byte) (string, []byte, error) {
	cr, err := crypto.Load(types.GetSignName("", signType), -1)
	if err != nil {
		return "", nil, err
	}
	p, err := cr.PrivKeyFromBytes(key)
	if err != nil {
		return "", nil, err
	}
	pub := p.PubKey().Bytes()
	return address.PubKeyToAddr(address.DefaultID, pub), pub, nil
}

// ---------------------------------------------------------------------------
// crypto/rand replacement for the duration of one execution

var randMu sync.Mutex

func swapRand(r io.Reader) (restore func()) {
	randMu.Lock()
	old := crand.Reader
	crand.Reader = r
	return func() { crand.Reader = old; randMu.Unlock() }
}

// ---------------------------------------------------------------------------
// goroutine identity (to name the tasks that park at simdb yield points)

func goid() uint64 {
	var buf [64]byte
	n := runtime.Stack(buf[:], false)
	// "goroutine 123 [running]:"
	b := buf[:n]
	b = bytes.TrimPrefix(b, []byte("goroutine "))
	var id uint64
	for _, c := range b {
		if c < '0' || c > '9' {
			break
		}
		id = id*10 + uint64(c-'0')
	}
	return id
}

// ---------------------------------------------------------------------------
// password generators (pure functions of the RNG)

const (
	letters = "abcdefghijklmnopqrstuvwxyzABCDEFGHIJKLMNOPQRSTUVWXYZ"
	digits  = "0123456789"
)

// validPassword: 8..30 bytes, letters and digits, at least one of each.
func validPassword(r *simrt.RNG) string {
	n := r.Range(8, 30)
	if r.Chance(1, 5) {
		n = []int{8, 30, 16, 17}[r.Intn(4)]
	}
	b := make([]byte, n)
	for i := range b {
		if r.Chance(1, 3) {
			b[i] = digits[r.Intn(len(digits))]
		} else {
			b[i] = letters[r.Intn(len(letters))]
		}
	}
	i := r.Intn(n)
	j := (i + 1 + r.Intn(n-1)) % n
	b[i] = letters[r.Intn(len(letters))]
	b[j] = digits[r.Intn(len(digits))]
	return string(b)
}

// anyPassword: 1..40 bytes of assorted shapes (most of them not acceptable as a
// NEW wallet password; all of them usable as a key for the cipher functions).
func anyPassword(r *simrt.RNG) string {
	switch r.Intn(8) {
	case 0: // short
		return randAlnum(r, r.Range(1, 7))
	case 1: // long
		return randAlnum(r, r.Range(31, 40))
	case 2: // letters only
		b := make([]byte, r.Range(8, 30))
		for i := range b {
			b[i] = letters[r.Intn(len(letters))]
		}
		return string(b)
	case 3: // digits only
		b := make([]byte, r.Range(8, 30))
		for i := range b {
			b[i] = digits[r.Intn(len(digits))]
		}
		return string(b)
	case 4: // with a symbol
		s := []byte(randAlnum(r, r.Range(8, 30)))
		s[r.Intn(len(s))] = "!@# -_:$%"[r.Intn(9)]
		return string(s)
	case 5: // multi-byte letters and digits
		parts := []string{"密", "码", "é", "ж", "ß", "a", "Z", "7", "0", "３"}
		var s string
		for len(s) < r.Range(8, 36) {
			s += parts[r.Intn(len(parts))]
		}
		return s
	case 6: // exactly around the key size
		return randAlnum(r, []int{31, 32, 33, 40, 16}[r.Intn(5)])
	default:
		return validPassword(r)
	}
}

func randAlnum(r *simrt.RNG, n int) string {
	if n < 1 {
		n = 1
	}
	b := make([]byte, n)
	for i := range b {
		if i%2 == 0 {
			b[i] = letters[r.Intn(len(letters))]
		} else {
			b[i] = digits[r.Intn(len(digits))]
		}
	}
	return string(b)
}

func hx(s string) string { return hex.EncodeToString([]byte(s)) }
