package walletsim

import (
	"encoding/hex"
	"fmt"
	"sort"
	"strings"
	"sync"
	"testing"
	"time"

	"github.com/33cn/chain33/client"
	"github.com/33cn/chain33/common"
	cty "github.com/33cn/chain33/system/dapp/coins/types"
	"github.com/33cn/chain33/types"
	"github.com/33cn/chain33/wallet"
	"github.com/anishathalye/porcupine"

	"verifsim/simdb"
	"verifsim/simrt"
)

func init() {
	simrt.Register(&simrt.Info{
		Property: "C38", Engine: &c38{},
		Rule: "one case = one wallet prepared in a generated state (restarted-and-locked / locked / unlocked) plus 2-4 concurrent actors issuing unlock(right/wrong, timeout), lock, set-password(right/wrong old), status, IsWalletLocked, dump key, sign, get seed and sleeps, directly or through the wallet's queue loop, interleaved by the seeded scheduler at every simdb operation inside the wallet (also while the wallet mutex is held); non-trivial = at least one scheduling decision differed from first-ready order, a state-changing request and an observer overlapped in time, and at least one secret was served",
		Nontrivial: func(sc *simrt.Scenario, r *simrt.Result) bool {
			return r.Probes["overlap_observer_mutator"] > 0 && r.Probes["secret_served"] > 0 && r.Nontrivial
		},
	})
}

type c38 struct{}

func (c38) Name() string { return "walletsim" }

// password pool: indexes 0..3 are acceptable wallet passwords; anything else is
// a password that is never in effect.
var pool38 = []string{"walletpass0a", "Second1Password", "third33333pw", "p4ssw0rdNumber4"}

func pw38(i int64) string {
	if i >= 0 && int(i) < len(pool38) {
		return pool38[i]
	}
	return fmt.Sprintf("neverSet%dx", i)
}

var keys38 = []string{
	"1111111111111111111111111111111111111111111111111111111111111111",
	"2a2a2a2a2a2a2a2a2a2a2a2a2a2a2a2a2a2a2a2a2a2a2a2a2a2a2a2a2a2a2a2a",
}

// ---------------------------------------------------------------------------
// generation

func (c38) Generate(prop string, r *simrt.RNG, tier string, run int) *simrt.Scenario {
	sc := &simrt.Scenario{Knobs: map[string]int64{}}
	sc.Knobs["init"] = int64(r.Weighted(4, 3, 3)) // 0 restarted+locked, 1 locked, 2 unlocked
	lockfree := r.Chance(1, 2)
	if lockfree {
		sc.Knobs["lockfree"] = 1
	}
	nact := r.Range(2, 4)
	cur := int64(0) // generator's guess of the password in effect
	pickPw := func() int64 {
		if r.Chance(3, 5) {
			return cur
		}
		if r.Chance(1, 2) {
			return int64(r.Intn(4))
		}
		return 9
	}
	for a := 0; a < nact; a++ {
		act := simrt.Op{K: "actor"}
		n := r.Range(5, 14)
		for i := 0; i < n; i++ {
			via := int64(r.Weighted(3, 2)) // 0 direct call, 1 through the queue loop
			var w []int
			if lockfree {
				w = []int{5, 3, 4, 4, 4, 3, 2, 2, 3}
			} else {
				w = []int{5, 3, 4, 0, 0, 4, 3, 3, 3}
			}
			switch r.Weighted(w...) {
			case 0:
				to := int64(0)
				if r.Chance(1, 2) {
					to = int64(r.Range(1, 4))
				}
				ticket := int64(0)
				if r.Chance(1, 8) {
					ticket = 1
				}
				act.Sub = append(act.Sub, simrt.Op{K: "unlock", I: []int64{pickPw(), to, via, ticket}})
			case 1:
				act.Sub = append(act.Sub, simrt.Op{K: "lock", I: []int64{via}})
			case 2:
				np := int64(r.Intn(4))
				old := pickPw()
				act.Sub = append(act.Sub, simrt.Op{K: "setpass", I: []int64{old, np, via}})
				if old == cur && r.Chance(2, 3) {
					cur = np
				}
			case 3:
				act.Sub = append(act.Sub, simrt.Op{K: "status", I: []int64{via}})
			case 4:
				act.Sub = append(act.Sub, simrt.Op{K: "islocked"})
			case 5:
				act.Sub = append(act.Sub, simrt.Op{K: "dump", I: []int64{int64(r.Intn(2)), via}})
			case 6:
				act.Sub = append(act.Sub, simrt.Op{K: "sign", I: []int64{int64(r.Intn(2)), via}})
			case 7:
				if r.Chance(1, 3) {
					// the private key of the index-derived account (queue request only)
					act.Sub = append(act.Sub, simrt.Op{K: "airdrop"})
					break
				}
				act.Sub = append(act.Sub, simrt.Op{K: "seed", I: []int64{pickPw(), via}})
			case 8:
				// never a multiple of 100 ms: a sleeper can never wake at the very
				// instant an unlock timeout (whole seconds) fires
				act.Sub = append(act.Sub, simrt.Op{K: "sleep", I: []int64{int64(r.Range(1, 30))*100 + 7}})
			}
		}
		sc.Ops = append(sc.Ops, act)
	}
	return sc
}

// ---------------------------------------------------------------------------
// history

type rec38 struct {
	client   int
	kind     string
	pw       string // unlock / seed / setpass(old)
	newpw    string
	timeout  int64
	ticket   bool
	via      int64
	call     uint64
	ret      uint64
	tCall    int64 // virtual ns
	tRet     int64
	ok       bool // request succeeded (unlock/setpass) or served a secret (dump/sign/seed)
	unlocked bool // status / islocked answered "not locked"
	errs     string
}

func (r *rec38) observer() bool {
	switch r.kind {
	case "status", "islocked", "dump", "sign", "seed", "airdrop":
		return true
	}
	return false
}

// sawUnlocked: the observer saw (or was served as if) the wallet was unlocked.
func (r *rec38) sawUnlocked() bool {
	switch r.kind {
	case "status", "islocked":
		return r.unlocked
	case "dump", "sign", "seed", "airdrop":
		return r.ok
	}
	return false
}

func (r *rec38) String() string {
	s := fmt.Sprintf("c%d %s", r.client, r.kind)
	switch r.kind {
	case "unlock":
		s += fmt.Sprintf("(pw=%q timeout=%ds ticketOnly=%v)", r.pw, r.timeout, r.ticket)
	case "setpass":
		s += fmt.Sprintf("(old=%q new=%q)", r.pw, r.newpw)
	case "seed":
		s += fmt.Sprintf("(pw=%q)", r.pw)
	}
	via := "direct"
	if r.via == 1 {
		via = "queue"
	}
	out := fmt.Sprintf("ok=%v", r.ok)
	if r.kind == "status" || r.kind == "islocked" {
		out = fmt.Sprintf("locked=%v", !r.unlocked)
	}
	if r.errs != "" {
		out += " err=" + r.errs
	}
	return fmt.Sprintf("[%d..%d] t=%.3fs %s %s -> %s", r.call, r.ret, float64(r.tCall)/1e9, s, via, out)
}

type world38 struct {
	ctx      *simrt.Ctx
	in       *inst
	disk     *simdb.Disk
	addrs    []string
	pubs     [][]byte
	txhex    string
	initLock bool
	initPw   string
	t0       time.Time
	token    chan struct{}
	mu       sync.Mutex
	recs     []*rec38
}

func (c38) Execute(t *testing.T, ctx *simrt.Ctx) *simrt.Violation {
	restore := swapRand(simrt.NewRNG(ctx.Sc.Seed).Sub("crand").SubN(uint64(ctx.Sc.Run)))
	defer restore()
	w := &world38{ctx: ctx}
	simrt.InBubble(t, func() { w.run() })
	return w.judge()
}

const id38 = "w38-live"

func (w *world38) run() {
	ctx := w.ctx
	sc := ctx.Sc
	cfg := cachedCfg(id38, types.SECP256K1)
	w.disk = simdb.NewDisk(id38)
	defer w.disk.Remove()
	w.in = startInst(cfg)
	w.t0 = time.Now()
	lw := w.in.w
	// sequential preparation: seed, two accounts
	w.initPw = pw38(0)
	ok, err := lw.SaveSeed(w.initPw, mnemonic([]byte("walletsim-c38-seed-entropy-0123456789")[:16]))
	if !ok || err != nil {
		simrt.Failf("C38 setup: SaveSeed: %v", err)
	}
	simrt.Must(lw.ProcWalletUnLock(&types.WalletUnLock{Passwd: w.initPw}), "C38 setup: unlock")
	for i, k := range keys38 {
		acc, err := lw.ProcImportPrivKey(&types.ReqWalletImportPrivkey{Privkey: k, Label: fmt.Sprintf("k%d", i)})
		simrt.Must(err, "C38 setup: import")
		w.addrs = append(w.addrs, acc.GetAcc().GetAddr())
		kb, _ := hex.DecodeString(k)
		_, pub, err := addrOf(types.SECP256K1, kb)
		simrt.Must(err, "addrOf")
		w.pubs = append(w.pubs, pub)
	}
	// the account derived for index requests ("airdrop") exists already in most
	// runs: a later request returns its stored private key
	if sc.Knob("airdrop_ready", 1) == 1 {
		if m, err := w.in.api().ExecWalletFunc("wallet", "NewAccountByIndex", &types.Int32{Data: int32(types.AirDropMinIndex)}); err != nil || m.(*types.ReplyString).Data == "" {
			simrt.Failf("C38 setup: NewAccountByIndex: %v", err)
		}
	}
	simrt.Settle()
	tx := &types.Transaction{Execer: []byte("coins"), To: w.addrs[0], Fee: 1000000,
		Payload: types.Encode(&cty.CoinsAction{Ty: cty.CoinsActionTransfer, Value: &cty.CoinsAction_Transfer{Transfer: &types.AssetsTransfer{Amount: 1}}})}
	w.txhex = hex.EncodeToString(types.Encode(tx))
	switch sc.Knob("init", 0) {
	case 0:
		w.in.stop()
		w.in = startInst(cfg)
		lw = w.in.w
		w.initLock = true
	case 1:
		simrt.Must(lw.ProcWalletLock(), "C38 setup: lock")
		w.initLock = true
	default:
		w.initLock = false
	}
	simrt.Settle()
	defer func() { w.in.stop() }()

	// concurrent phase
	s := simrt.NewSched(ctx)
	names := map[uint64]string{}
	var nmu sync.Mutex
	bg := 0
	w.disk.Hooks.Yield = func(site string) {
		id := goid()
		nmu.Lock()
		n, ok := names[id]
		if !ok {
			n = fmt.Sprintf("sut%d", bg)
			bg++
			names[id] = n
		}
		nmu.Unlock()
		s.Park(n, site)
	}
	w.token = make(chan struct{}, 1)
	w.token <- struct{}{}
	na := 0
	for i := range sc.Ops {
		op := &sc.Ops[i]
		if op.K != "actor" {
			continue
		}
		cid := na
		na++
		opIdx := i
		api := w.in.api()
		s.Go(fmt.Sprintf("actor%d", cid), func(a *simrt.Actor) {
			nmu.Lock()
			names[goid()] = a.Name
			nmu.Unlock()
			for j := range op.Sub {
				a.Yield("op")
				w.do(a, cid, opIdx, &op.Sub[j], api)
			}
		})
	}
	dl := s.Run(50000)
	w.disk.Hooks.Yield = nil
	if dl != "" {
		simrt.Failf("C38: scheduler reports a deadlock: %s", dl)
	}
}

func errS(err error) string {
	if err == nil {
		return ""
	}
	return err.Error()
}

// do executes one actor op against the live wallet and records it.
func (w *world38) do(a *simrt.Actor, cid, opIdx int, op *simrt.Op, api client.QueueProtocolAPI) {
	ctx := w.ctx
	lw := w.in.w
	if op.K == "sleep" {
		d := time.Duration(op.Int(0)) * time.Millisecond
		time.Sleep(d)
		return
	}
	r := &rec38{client: cid, kind: op.K}
	viaQ := false
	// Invocation and return are stamped only right after the scheduler released
	// this actor (nothing else runs at that moment), never in the middle of a
	// step where a mutex hand-over may have several goroutines running at once:
	// the stamps are then a function of the schedule alone. Stamping the return
	// after one more yield can only lengthen the recorded interval, which makes
	// the real-time order weaker, never wrong.
	begin := func(via int64) {
		r.via = via
		if via == 1 {
			viaQ = true
			<-w.token // at most one request of ours waits in the wallet's queue
			a.Yield("send")
		}
		r.call = ctx.Seq()
		r.tCall = int64(time.Since(w.t0))
	}
	end := func() {
		a.Yield("ret")
		r.ret = ctx.Seq()
		r.tRet = int64(time.Since(w.t0))
		w.mu.Lock()
		w.recs = append(w.recs, r)
		w.mu.Unlock()
		if viaQ {
			w.token <- struct{}{}
		}
	}
	switch op.K {
	case "unlock":
		r.pw, r.timeout, r.ticket = pw38(op.Int(0)), op.Int(1), op.Int(3) == 1
		req := &types.WalletUnLock{Passwd: r.pw, Timeout: r.timeout, WalletOrTicket: r.ticket}
		begin(op.Int(2))
		if viaQ {
			m, err := api.ExecWalletFunc("wallet", "WalletUnLock", req)
			if rep, ok := m.(*types.Reply); ok && err == nil {
				r.ok = rep.IsOk
				r.errs = string(rep.Msg)
			} else {
				r.errs = errS(err)
			}
		} else {
			err := lw.ProcWalletUnLock(req)
			r.ok, r.errs = err == nil, errS(err)
		}
		end()
	case "lock":
		begin(op.Int(0))
		if viaQ {
			m, err := api.ExecWalletFunc("wallet", "WalletLock", &types.ReqNil{})
			if rep, ok := m.(*types.Reply); ok && err == nil {
				r.ok = rep.IsOk
			}
			r.errs = errS(err)
		} else {
			err := lw.ProcWalletLock()
			r.ok, r.errs = err == nil, errS(err)
		}
		end()
	case "setpass":
		r.pw, r.newpw = pw38(op.Int(0)), pw38(op.Int(1)%4)
		req := &types.ReqWalletSetPasswd{OldPass: r.pw, NewPass: r.newpw}
		begin(op.Int(2))
		if viaQ {
			m, err := api.ExecWalletFunc("wallet", "WalletSetPasswd", req)
			if rep, ok := m.(*types.Reply); ok && err == nil {
				r.ok = rep.IsOk
				r.errs = string(rep.Msg)
			} else {
				r.errs = errS(err)
			}
		} else {
			err := lw.ProcWalletSetPasswd(req)
			r.ok, r.errs = err == nil, errS(err)
		}
		end()
	case "status":
		begin(op.Int(0))
		if viaQ {
			m, err := api.ExecWalletFunc("wallet", "GetWalletStatus", &types.ReqNil{})
			if st, ok := m.(*types.WalletStatus); ok && err == nil {
				r.unlocked = !st.IsWalletLock
			} else {
				simrt.Failf("C38: GetWalletStatus through the queue: %v %T", err, m)
			}
		} else {
			r.unlocked = !lw.GetWalletStatus().IsWalletLock
		}
		end()
	case "islocked":
		begin(0)
		r.unlocked = !lw.IsWalletLocked()
		end()
	case "airdrop":
		begin(1)
		m, err := api.ExecWalletFunc("wallet", "NewAccountByIndex", &types.Int32{Data: int32(types.AirDropMinIndex)})
		if rep, ok := m.(*types.ReplyString); ok && err == nil && rep.Data != "" {
			r.ok = true
		}
		r.errs = errS(err)
		end()
	case "dump":
		addr := w.addrs[int(op.Int(0))%len(w.addrs)]
		begin(op.Int(1))
		if viaQ {
			m, err := api.ExecWalletFunc("wallet", "DumpPrivkey", &types.ReqString{Data: addr})
			if rep, ok := m.(*types.ReplyString); ok && err == nil && rep.Data != "" {
				r.ok = true
			}
			r.errs = errS(err)
		} else {
			s, err := lw.ProcDumpPrivkey(addr)
			r.ok, r.errs = err == nil && s != "", errS(err)
		}
		end()
	case "sign":
		k := int(op.Int(0)) % len(w.addrs)
		req := &types.ReqSignRawTx{Addr: w.addrs[k], TxHex: w.txhex, Expire: "300s"}
		begin(op.Int(1))
		var signed string
		if viaQ {
			m, err := api.ExecWalletFunc("wallet", "SignRawTx", req)
			if rep, ok := m.(*types.ReplySignRawTx); ok && err == nil {
				signed = rep.TxHex
			}
			r.errs = errS(err)
		} else {
			s, err := lw.ProcSignRawTx(req)
			if err == nil {
				signed = s
			}
			r.errs = errS(err)
		}
		if signed != "" {
			// "signs with a stored key": the signature carries the stored key's public key
			b, err := common.FromHex(signed)
			var tx types.Transaction
			if err == nil && types.Decode(b, &tx) == nil && tx.Signature != nil && string(tx.Signature.Pubkey) == string(w.pubs[k]) {
				r.ok = true
			}
		}
		end()
	case "seed":
		r.pw = pw38(op.Int(0))
		begin(op.Int(1))
		if viaQ {
			m, err := api.ExecWalletFunc("wallet", "GetSeed", &types.GetSeedByPw{Passwd: r.pw})
			if rep, ok := m.(*types.ReplySeed); ok && err == nil && rep.Seed != "" {
				r.ok = true
			}
			r.errs = errS(err)
		} else {
			s, err := lw.GetSeed(r.pw)
			r.ok, r.errs = err == nil && s != "", errS(err)
		}
		end()
	}
	_ = opIdx
}

// ---------------------------------------------------------------------------
// oracle

type st38 struct {
	locked   bool
	pw       string
	deadline int64 // 0: no unlock timeout pending
}

func effLocked(s st38, t int64) bool { return s.locked || (s.deadline != 0 && t >= s.deadline) }

// step38 is the sequential wallet of the property statement. It is one-sided
// where the statement is: answering "locked" / refusing a secret is always
// allowed; answering "unlocked" or serving a secret needs an unlocked state.
func step38(state, input, output interface{}) (bool, interface{}) {
	s := state.(st38)
	r := input.(*rec38)
	switch r.kind {
	case "unlock":
		// a refused request is always allowed (and changes nothing); a granted one
		// needs the password in effect
		if r.ok && r.pw != s.pw {
			return false, s
		}
		if r.ok && !r.ticket {
			s.locked = false
			s.deadline = 0
			if r.timeout > 0 {
				s.deadline = r.tRet + r.timeout*int64(time.Second)
			}
		}
	case "lock":
		s.locked = true
		s.deadline = 0
	case "setpass":
		if r.ok && r.pw != s.pw {
			return false, s
		}
		if r.ok {
			s.pw = r.newpw
		}
	case "status", "islocked":
		if r.unlocked && effLocked(s, r.tCall) {
			return false, s
		}
	case "dump", "sign", "airdrop":
		if r.ok && effLocked(s, r.tCall) {
			return false, s
		}
	case "seed":
		if r.ok && (effLocked(s, r.tCall) || r.pw != s.pw) {
			return false, s
		}
	}
	return true, s
}

func (w *world38) model() porcupine.Model {
	init := st38{locked: w.initLock, pw: w.initPw}
	return porcupine.Model{
		Init:              func() interface{} { return init },
		Step:              step38,
		DescribeOperation: func(in, out interface{}) string { return in.(*rec38).String() },
	}
}

func toOps(recs []*rec38) []porcupine.Operation {
	ops := make([]porcupine.Operation, 0, len(recs))
	for _, r := range recs {
		ops = append(ops, porcupine.Operation{ClientId: r.client, Input: r, Output: r, Call: int64(r.call), Return: int64(r.ret)})
	}
	return ops
}

// justified: is there a successful full unlock (or the prepared unlocked state)
// that can explain observer o seeing the wallet unlocked? Necessary condition
// for any linearisation, checked directly.
func (w *world38) justified(o *rec38, recs []*rec38) (bool, string) {
	type src struct {
		call, ret uint64
		tRet      int64
		timeout   int64
	}
	var srcs []src
	if !w.initLock {
		srcs = append(srcs, src{})
	}
	failed, ticketOnly := false, false
	for _, u := range recs {
		if u.kind != "unlock" || u.call >= o.ret {
			continue
		}
		switch {
		case u.ok && !u.ticket:
			srcs = append(srcs, src{u.call, u.ret, u.tRet, u.timeout})
		case u.ok:
			ticketOnly = true
		default:
			failed = true
		}
	}
	why := "never-unlocked"
	if failed {
		why = "after-failed-unlock-only"
	}
	if ticketOnly {
		why = "after-ticket-only-unlock"
	}
	for _, u := range srcs {
		lockBetween := false
		for _, l := range recs {
			if l.kind == "lock" && l.call > u.ret && l.ret < o.call {
				lockBetween = true
			}
		}
		if lockBetween {
			why = "after-lock"
			continue
		}
		if u.timeout > 0 && o.tCall >= u.tRet+u.timeout*int64(time.Second) {
			if why != "after-lock" {
				why = "after-timeout"
			}
			continue
		}
		return true, ""
	}
	return false, why
}

func (w *world38) judge() *simrt.Violation {
	ctx := w.ctx
	recs := append([]*rec38(nil), w.recs...)
	sort.Slice(recs, func(i, j int) bool { return recs[i].call < recs[j].call })
	for _, r := range recs {
		ctx.Logf("%s", r.String())
	}
	ctx.CurOp = 0
	// coverage
	for _, o := range recs {
		if o.sawUnlocked() && o.kind != "status" && o.kind != "islocked" {
			ctx.Probe("secret_served")
		}
		if o.kind == "unlock" && o.ok && o.timeout > 0 {
			ctx.Probe("timed_unlock")
		}
		if o.observer() && !o.sawUnlocked() {
			for _, u := range recs {
				if u.kind == "unlock" && u.ok && !u.ticket && u.timeout > 0 && u.ret < o.call && u.tRet+u.timeout*int64(time.Second) <= o.tCall {
					ctx.Probe("refused_after_timeout_expired")
					break
				}
			}
		}
		if (o.kind == "status" || o.kind == "islocked") && o.unlocked {
			ctx.Probe("status_unlocked")
		}
		if !o.observer() {
			continue
		}
		for _, m := range recs {
			if !m.observer() && m.call < o.ret && m.ret > o.call {
				ctx.Probe("overlap_observer_mutator")
				if m.kind == "setpass" {
					ctx.Probe("observer_during_setpasswd")
				}
				break
			}
		}
	}
	history := func() string {
		var sb strings.Builder
		for _, r := range recs {
			sb.WriteString("\n    " + r.String())
		}
		return sb.String()
	}
	initS := fmt.Sprintf("prepared state: locked=%v password=%q", w.initLock, w.initPw)

	// 1. direct invariant
	var transient *simrt.Violation
	skip := map[*rec38]bool{}
	for _, o := range recs {
		if !o.sawUnlocked() {
			continue
		}
		ok, why := w.justified(o, recs)
		if ok {
			continue
		}
		// is a password change in flight around this observation?
		var sp *rec38
		for _, m := range recs {
			if m.kind == "setpass" && m.call < o.ret && m.ret > o.call {
				sp = m
			}
		}
		if sp != nil && (o.kind == "status" || o.kind == "islocked") {
			skip[o] = true
			if transient == nil {
				old := "wrong-old"
				if sp.ok {
					old = "right-old"
				}
				transient = ctx.Violate("unlocked-without-unlock", "transient-during-setpasswd/"+o.kind+"/"+old,
					"%s answered NOT LOCKED while a password change (%s) was in flight and no successful unlock can explain it (%s); %s; history:%s",
					o.String(), sp.String(), why, initS, history())
			}
			continue
		}
		what := "answered NOT LOCKED"
		if o.kind != "status" && o.kind != "islocked" {
			what = "was served a secret"
		}
		return ctx.Violate("unlocked-without-unlock", o.kind+"/"+why,
			"%s %s but no successful unlock can explain it (%s); %s; history:%s", o.String(), what, why, initS, history())
	}

	// 2. linearisability against the sequential wallet (observations already
	// reported as the transient above are left out so that anything else shows)
	var rest []*rec38
	for _, r := range recs {
		if !skip[r] {
			rest = append(rest, r)
		}
	}
	model := w.model()
	res := porcupine.CheckOperationsTimeout(model, toOps(rest), 30*time.Second)
	switch res {
	case porcupine.Unknown:
		ctx.Probe("porcupine_unknown")
	case porcupine.Illegal:
		// name the culprit: the ops whose removal alone restores linearisability
		var culprits []string
		seen := map[string]bool{}
		for i, r := range rest {
			cut := append(append([]*rec38(nil), rest[:i]...), rest[i+1:]...)
			if porcupine.CheckOperationsTimeout(model, toOps(cut), 10*time.Second) == porcupine.Ok {
				k := r.kind
				switch {
				case r.kind == "status" || r.kind == "islocked":
					k += "-unlocked"
				case r.observer():
					k += "-served"
				case r.ok:
					k += "-ok"
				default:
					k += "-refused"
				}
				if !seen[k] {
					seen[k] = true
					culprits = append(culprits, k)
				}
			}
		}
		sort.Strings(culprits)
		sig := "multi"
		if len(culprits) > 0 && len(culprits) <= 3 {
			sig = strings.Join(culprits, "+")
		}
		return ctx.Violate("not-linearizable", sig,
			"no sequential order of the requests consistent with their real-time order is a behaviour of a wallet that is unlocked only between a successful unlock and the next lock/timeout; %s; history:%s", initS, history())
	default:
		ctx.Probe("porcupine_ok")
	}
	ctx.State(simrt.DigestOf(len(recs), w.initLock, res))
	return transient
}

var _ = wallet.New
