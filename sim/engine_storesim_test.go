//go:build eng_all || eng_storesim

package verifsim

import _ "verifsim/engines/storesim"
